"""Shared models extracted from the facts: spirv enums/masks, grammar tables, opcode predicates."""
import glob
import json
import os

from . import facts
from .core import Anchor
from .tree import Crate, Mir, Raw, int_of, is_node, lastseg, path_of, show, strip_generics, strip_refs, walk


class Ctx:
    def __init__(self, fresh=False, features=""):
        self.dir = facts.ensure(fresh=fresh, features=features)
        self._crates = {}
        self._mir = {}
        self._raw = None
        self._memo = {}
        with open(os.path.join(self.dir, "meta.json")) as fh:
            self.meta = json.load(fh)
        self.meta["repo"] = facts.REPO           # a cache hit may have been extracted from another copy of the same tree

    def crate(self, name):
        if name not in self._crates:
            self._crates[name] = Crate(self.dir, name)
        return self._crates[name]

    @property
    def rspirv(self):
        return self.crate("rspirv")

    @property
    def spirv(self):
        return self.crate("spirv")

    @property
    def dis(self):
        return self.crate("rspirv_dis")

    def mir(self, name="rspirv"):
        if name not in self._mir:
            self._mir[name] = Mir(self.dir, name)
        return self._mir[name]

    @property
    def raw(self):
        if self._raw is None:
            self._raw = Raw(self.dir)
        return self._raw

    def memo(self, key, fn):
        if key not in self._memo:
            self._memo[key] = fn()
        return self._memo[key]


# --------------------------------------------------------------------------- spirv enums

def const_value(n):
    """Integer value of a literal expression (with casts), else None."""
    return int_of(n)


def spirv_enums(ctx):
    """name -> {variants: [(name, value)], repr, aliases: {alias: variant}, from_u32: fn|None, from_str: fn|None}"""
    def build():
        c = ctx.spirv
        out = {}
        for e in c.items("spirv", "enum"):
            vs = []
            for v in e["variants"]:
                val = const_value(v["discr"]) if v["discr"] is not None else None
                vs.append((v["name"], val, v["fields"]))
            out[e["name"]] = {"name": e["name"], "variants": vs, "attrs": e["attrs"], "aliases": {}, "from_u32": None,
                              "from_str": None, "alias_bad": []}
        for im in c.items("spirv", "impl"):
            st = strip_generics(im["self_ty"])
            if st not in out:
                continue
            tr = im.get("trait")
            for it in im["items"]:
                if it["kind"] == "const" and not tr:
                    p = path_of(it["init"])
                    if p and (p.startswith("Self::") or p.startswith(st + "::")) and len(p.split("::")) == 2:
                        out[st]["aliases"][it["name"]] = p.split("::")[-1]
                    else:
                        out[st]["alias_bad"].append((it["name"], show(it["init"])))
                elif it["kind"] == "fn" and it["name"] == "from_u32" and not tr:
                    out[st]["from_u32"] = it
                elif it["kind"] == "fn" and it["name"] == "from_str" and tr and tr.endswith("FromStr"):
                    out[st]["from_str"] = it
        return out
    return ctx.memo("spirv_enums", build)


def spirv_masks(ctx):
    """name -> {flags: [(NAME, value)], named_in_FLAGS: [...], problems: [...]} from the bitflags expansion."""
    def build():
        c = ctx.spirv
        out = {}
        structs = {s["name"] for s in c.items("spirv", "struct")}
        for im in c.items("spirv", "impl"):
            st = strip_generics(im["self_ty"])
            if st not in structs:
                continue
            tr = im.get("trait")
            m = out.setdefault(st, {"name": st, "consts": {}, "flags": None, "problems": []})
            if not tr:
                for it in im["items"]:
                    if it["kind"] == "const":
                        init = it["init"]
                        v = None
                        if is_node(init) and init[0] == "call" and path_of(init[1]) == "Self::from_bits_retain" and len(init[2]) == 1:
                            v = const_value(init[2][0])
                        if v is None:
                            m["problems"].append("flag %s has an initialiser that is not a literal: %s" % (it["name"], show(init)))
                        else:
                            m["consts"][it["name"]] = v
            elif tr.endswith("bitflags::Flags"):
                for it in im["items"]:
                    if it["kind"] == "const" and it["name"] == "FLAGS":
                        flags = []
                        for n in walk(it["init"]):
                            if n[0] == "call" and (path_of(n[1]) or "").endswith("Flag::new"):
                                p = path_of(n[2][1])
                                if p and p.startswith(st + "::"):
                                    flags.append(p.split("::")[-1])
                                else:
                                    m["problems"].append("FLAGS entry with a value that is not a named flag: %s" % show(n[2][1]))
                        m["flags"] = flags
                    if it["kind"] == "type" and it["name"] == "Bits":
                        m["bits_ty"] = it["ty"]
        return {k: v for k, v in out.items() if v["flags"] is not None}
    return ctx.memo("spirv_masks", build)


# --------------------------------------------------------------------------- grammar tables

def _table_rows(static, ext):
    init = strip_refs(static["init"])
    if not (is_node(init) and init[0] == "array"):
        raise Anchor("static %s is not an array literal" % static["name"])
    rows = []
    for r in init[1]:
        if not (is_node(r) and r[0] == "struct"):
            raise Anchor("row of %s is not a struct literal: %s" % (static["name"], show(r)[:80]))
        f = dict((a, b) for a, b in r[2])
        row = {"struct": r[1]}
        on = f.get("opname")
        row["opname"] = on[2] if is_node(on) and on[0] == "lit" and on[1] == "str" else None
        oc = f.get("opcode")
        if ext:
            row["opcode"] = const_value(oc)
        else:
            p = path_of(oc)
            row["opcode"] = p.split("::")[-1] if p and lastseg(p, 2).startswith("Op::") else None
        caps = strip_refs(f.get("capabilities"))
        row["caps"] = [lastseg(path_of(x) or "?") for x in caps[1]] if is_node(caps) and caps[0] == "array" else None
        exts = strip_refs(f.get("extensions"))
        row["exts"] = [x[2] if is_node(x) and x[0] == "lit" else "?" for x in exts[1]] if is_node(exts) and exts[0] == "array" else None
        ops = strip_refs(f.get("operands"))
        row["operands"] = None
        if is_node(ops) and ops[0] == "array":
            lst = []
            for o in ops[1]:
                if is_node(o) and o[0] == "struct":
                    g = dict((a, b) for a, b in o[2])
                    lst.append((lastseg(path_of(g.get("kind")) or "?"), lastseg(path_of(g.get("quantifier")) or "?")))
                else:
                    lst.append(("?", "?"))
            row["operands"] = lst
        rows.append(row)
    return rows


def grammar_tables(ctx):
    def build():
        c = ctx.rspirv
        mod = "rspirv::grammar::syntax"
        core = _table_rows(c.item(mod, "static", "INSTRUCTION_TABLE"), False)
        glsl = _table_rows(c.item(mod, "static", "GLSL_STD_450_INSTRUCTION_TABLE"), True)
        ocl = _table_rows(c.item(mod, "static", "OPENCL_STD_100_INSTRUCTION_TABLE"), True)
        kinds = [v["name"] for v in c.item(mod, "enum", "OperandKind")["variants"]]
        quants = [v["name"] for v in c.item(mod, "enum", "OperandQuantifier")["variants"]]
        return {"core": core, "glsl": glsl, "opencl": ocl, "kinds": kinds, "quantifiers": quants}
    return ctx.memo("grammar_tables", build)


def op_values(ctx):
    """Op variant -> number; plus alias consts resolved."""
    e = spirv_enums(ctx).get("Op")
    if not e:
        raise Anchor("enum spirv::Op not found")
    d = {n: v for n, v, _ in e["variants"]}
    return d, dict(e["aliases"])


def core_row(ctx, opname):
    rows = ctx.memo("core_by_name", lambda: {r["opcode"]: r for r in grammar_tables(ctx)["core"]})
    return rows.get(opname)


# --------------------------------------------------------------------------- opcode predicates (predeval)

class PredEval:
    """Evaluates `fn(spirv::Op) -> bool` bodies built from matches!/==/||/&&/! and calls to sibling predicates
    into explicit opcode sets."""

    def __init__(self, ctx, mod="rspirv::grammar::reflect"):
        self.ctx = ctx
        self.mod = mod
        self.ops, self.aliases = op_values(ctx)
        self.fns = {f["name"]: f for f in ctx.rspirv.fns(mod)}
        self._cache = {}

    def resolve_op(self, p):
        if p is None:
            return None
        segs = p.split("::")
        if len(segs) >= 2 and segs[-2] == "Op":
            n = segs[-1]
            n = self.aliases.get(n, n)
            if n in self.ops:
                return n
        return None

    def pat_ops(self, pat):
        k = pat[0]
        if k == "p_or":
            s = set()
            for c in pat[1]:
                s |= self.pat_ops(c)
            return s
        if k in ("p_path", "p_ident"):
            o = self.resolve_op(path_of(pat))
            if o is None:
                raise Anchor("pattern %s does not name an opcode" % show(pat))
            return {o}
        if k == "p_wild":
            return set(self.ops)
        raise Anchor("unrecognised opcode pattern %s" % show(pat))

    def predicate(self, name):
        """Opcode set of a predicate, by evaluating its body for each of the (finitely many) opcodes."""
        if name in self._cache:
            return self._cache[name]
        f = self.fns.get(name)
        if f is None:
            raise Anchor("predicate %s not found in %s" % (name, self.mod))
        params = [p for p in f["sig"]["params"]]
        if len(params) != 1:
            raise Anchor("predicate %s does not take exactly one argument" % name)
        var = params[0][0]
        self._cache[name] = None  # recursion guard
        res = set()
        try:
            for op in self.ops:
                v = self.block(f["body"], {var: ("op", op)})
                if not isinstance(v, bool):
                    raise Anchor("predicate %s does not evaluate to a boolean for Op%s: %r" % (name, op, v))
                if v:
                    res.add(op)
        except Anchor:
            # not one of the directly recognised forms: evaluate the body with the general evaluator, opcode by opcode
            res = self._by_general_evaluation(f, var, name)
        self._cache[name] = res
        return res

    def _by_general_evaluation(self, f, var, name):
        from .symeval import SymEval, Hooks, Panic as SPanic
        pe = self

        class PH(Hooks):
            def path(self, p):
                o = pe.resolve_op(p)
                return ("enum", "Op::" + o, []) if o is not None else NotImplemented

            def match_path(self, v, path):
                o = pe.resolve_op(path)
                if o is not None and isinstance(v, tuple) and v[0] == "enum":
                    return v[1] == "Op::" + o
                return NotImplemented

            def binary(self, op, a, b, e):
                if op in ("==", "!=") and isinstance(a, tuple) and isinstance(b, tuple) and a and b and a[0] == "enum" and b[0] == "enum":
                    return (a[1] == b[1]) == (op == "==")
                return NotImplemented

            def cast(self, v, ty, e):
                if isinstance(v, tuple) and v and v[0] == "enum" and v[1].startswith("Op::") and ty.replace(" ", "") in ("u32", "u16", "usize", "u64", "i32", "spirv::Word", "Word"):
                    return pe.ops[v[1][4:]]
                return NotImplemented

            def call(self, p, args, e):
                last = p.split("::")[-1]
                if last in pe.fns and len(args) == 1 and isinstance(args[0], tuple) and args[0][0] == "enum":
                    s_ = pe.predicate(last)
                    if s_ is None:
                        raise Anchor("recursive predicate %s" % last)
                    return args[0][1][4:] in s_
                return NotImplemented
        res = set()
        for op in self.ops:
            try:
                v = SymEval(PH(), "predicate " + name).run(f, {var: ("enum", "Op::" + op, [])})
            except SPanic as x:
                raise Anchor("predicate %s panics for Op%s: %s" % (name, op, x))
            if not isinstance(v, bool):
                raise Anchor("predicate %s does not evaluate to a boolean for Op%s: %r" % (name, op, v))
            if v:
                res.add(op)
        return res

    def block(self, b, env):
        env = dict(env)
        r = None
        for s in b[1]:
            if s[0] == "local":
                if s[1][0] != "p_ident" or s[3] is None:
                    raise Anchor("unrecognised let in predicate: %s" % show(s[1]))
                env[s[1][1]] = self.eval(s[3], env)
                r = None
            elif s[0] == "expr":
                r = self.eval(s[1], env)
                if s[2]:
                    r = None
            else:
                raise Anchor("unrecognised statement in predicate")
        return r

    def num(self, v):
        if isinstance(v, tuple) and v[0] == "op":
            return self.ops[v[1]]
        if isinstance(v, int) and not isinstance(v, bool):
            return v
        raise Anchor("not a number in predicate: %r" % (v,))

    def eval(self, e, env):
        k = e[0]
        if k == "block":
            return self.block(e, env)
        if k == "lit":
            if e[1] == "bool":
                return bool(e[2])
            if e[1] == "int":
                return int(e[2])
            raise Anchor("literal %s in predicate" % show(e))
        if k == "path":
            p = e[1]
            if p in env:
                return env[p]
            o = self.resolve_op(p)
            if o is not None:
                return ("op", o)
            raise Anchor("unknown name %s in predicate" % p)
        if k == "ref" or (k == "unary" and e[1] == "*"):
            return self.eval(e[2], env)
        if k == "unary" and e[1] == "!":
            v = self.eval(e[2], env)
            if not isinstance(v, bool):
                raise Anchor("negation of a non-boolean in predicate")
            return not v
        if k == "cast":
            v = self.eval(e[1], env)
            if e[2] in ("u32", "u16", "usize", "u64", "i32", "i64", "spirv::Word", "Word"):
                n = self.num(v)
                if e[2] == "u16":
                    n &= 0xffff
                return n
            raise Anchor("cast to %s in predicate" % e[2])
        if k == "binary":
            op = e[1]
            if op in ("||", "&&"):
                a = self.eval(e[2], env)
                if not isinstance(a, bool):
                    raise Anchor("non-boolean operand in predicate: %s" % show(e[2]))
                if (op == "||" and a) or (op == "&&" and not a):
                    return a
                b = self.eval(e[3], env)
                if not isinstance(b, bool):
                    raise Anchor("non-boolean operand in predicate: %s" % show(e[3]))
                return b
            a, b = self.eval(e[2], env), self.eval(e[3], env)
            if op in ("==", "!="):
                if isinstance(a, tuple) and isinstance(b, tuple) and a[0] == "op" and b[0] == "op":
                    return (a[1] == b[1]) == (op == "==")
                if isinstance(a, bool) and isinstance(b, bool):
                    return (a == b) == (op == "==")
                return (self.num(a) == self.num(b)) == (op == "==")
            if op in ("<", "<=", ">", ">="):
                x, y = self.num(a), self.num(b)
                return {"<": x < y, "<=": x <= y, ">": x > y, ">=": x >= y}[op]
            if op in ("+", "-", "&", "|", "^", ">>", "<<"):
                x, y = self.num(a), self.num(b)
                return {"+": x + y, "-": x - y, "&": x & y, "|": x | y, "^": x ^ y, ">>": x >> y, "<<": (x << y) & 0xffffffff}[op]
            raise Anchor("operator %s in predicate" % op)
        if k == "range":
            lo = self.num(self.eval(e[1], env)) if e[1] is not None else 0
            hi = self.num(self.eval(e[2], env)) if e[2] is not None else 2 ** 32
            return ("range", lo, hi if e[3] else hi - 1)
        if k == "mcall":
            if e[2] == "contains" and len(e[3]) == 1:
                r = self.eval(e[1], env)
                if isinstance(r, tuple) and r[0] == "range":
                    x = self.num(self.eval(e[3][0], env))
                    return r[1] <= x <= r[2]
            raise Anchor("method call %s in predicate" % show(e)[:80])
        if k == "if" and e[1][0] != "let":
            c = self.eval(e[1], env)
            if not isinstance(c, bool):
                raise Anchor("non-boolean condition in predicate")
            if c:
                return self.eval(e[2], env)
            if e[3] is None:
                raise Anchor("if without else in predicate")
            return self.eval(e[3], env)
        if k == "match":
            v = self.eval(e[1], env)
            for pat, guard, body in e[2]:
                if not self.pmatch(pat, v):
                    continue
                if guard is not None:
                    g = self.eval(guard, env)
                    if not isinstance(g, bool):
                        raise Anchor("non-boolean guard in predicate")
                    if not g:
                        continue
                return self.eval(body, env)
            raise Anchor("no arm matches in predicate match")
        if k == "call":
            p = path_of(e[1])
            if p and len(e[2]) == 1:
                n = p.split("::")[-1]
                if n in self.fns:
                    a = self.eval(e[2][0], env)
                    if isinstance(a, tuple) and a[0] == "op":
                        r = self.predicate(n)
                        if r is None:
                            raise Anchor("recursive predicate %s" % n)
                        return a[1] in r
        if k == "return" and e[1] is not None:
            raise Anchor("early return in predicate (not supported)")
        raise Anchor("unrecognised predicate expression: %s" % show(e)[:120])

    def pmatch(self, pat, v):
        k = pat[0]
        if k == "p_wild":
            return True
        if k == "p_or":
            return any(self.pmatch(c, v) for c in pat[1])
        if k in ("p_path", "p_ident"):
            o = self.resolve_op(path_of(pat))
            if o is None:
                if k == "p_ident":
                    raise Anchor("binding pattern %s in predicate match" % show(pat))
                raise Anchor("pattern %s does not name an opcode" % show(pat))
            return isinstance(v, tuple) and v[0] == "op" and v[1] == o
        if k == "p_lit":
            return self.num(v) == int_of(pat)
        if k == "p_range":
            x = self.num(v)
            lo = int_of(pat[1]) if pat[1] is not None else 0
            hi = int_of(pat[2]) if pat[2] is not None else 2 ** 32
            if lo is None or hi is None:
                raise Anchor("range pattern bound in predicate")
            return lo <= x <= (hi if pat[3] else hi - 1)
        raise Anchor("unrecognised pattern in predicate: %s" % show(pat))


def predeval(ctx):
    return ctx.memo("predeval", lambda: PredEval(ctx))
