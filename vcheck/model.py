"""Shared models extracted from the facts: spirv enums/masks, grammar tables, opcode predicates."""
import glob
import json
import os

from . import facts
from .core import Anchor
from .tree import Crate, Mir, Raw, int_of, is_node, lastseg, path_of, show, strip_generics, strip_refs, walk


class Ctx:
    def __init__(self, fresh=False, features=""):
        self.dir = facts.ensure(fresh=fresh, features=features)
        self._crates = {}
        self._mir = {}
        self._raw = None
        self._memo = {}
        with open(os.path.join(self.dir, "meta.json")) as fh:
            self.meta = json.load(fh)

    def crate(self, name):
        if name not in self._crates:
            self._crates[name] = Crate(self.dir, name)
        return self._crates[name]

    @property
    def rspirv(self):
        return self.crate("rspirv")

    @property
    def spirv(self):
        return self.crate("spirv")

    @property
    def dis(self):
        return self.crate("rspirv_dis")

    def mir(self, name="rspirv"):
        if name not in self._mir:
            self._mir[name] = Mir(self.dir, name)
        return self._mir[name]

    @property
    def raw(self):
        if self._raw is None:
            self._raw = Raw(self.dir)
        return self._raw

    def memo(self, key, fn):
        if key not in self._memo:
            self._memo[key] = fn()
        return self._memo[key]


# --------------------------------------------------------------------------- spirv enums

def const_value(n):
    """Integer value of a literal expression (with casts), else None."""
    return int_of(n)


def spirv_enums(ctx):
    """name -> {variants: [(name, value)], repr, aliases: {alias: variant}, from_u32: fn|None, from_str: fn|None}"""
    def build():
        c = ctx.spirv
        out = {}
        for e in c.items("spirv", "enum"):
            vs = []
            for v in e["variants"]:
                val = const_value(v["discr"]) if v["discr"] is not None else None
                vs.append((v["name"], val, v["fields"]))
            out[e["name"]] = {"name": e["name"], "variants": vs, "attrs": e["attrs"], "aliases": {}, "from_u32": None,
                              "from_str": None, "alias_bad": []}
        for im in c.items("spirv", "impl"):
            st = strip_generics(im["self_ty"])
            if st not in out:
                continue
            tr = im.get("trait")
            for it in im["items"]:
                if it["kind"] == "const" and not tr:
                    p = path_of(it["init"])
                    if p and (p.startswith("Self::") or p.startswith(st + "::")) and len(p.split("::")) == 2:
                        out[st]["aliases"][it["name"]] = p.split("::")[-1]
                    else:
                        out[st]["alias_bad"].append((it["name"], show(it["init"])))
                elif it["kind"] == "fn" and it["name"] == "from_u32" and not tr:
                    out[st]["from_u32"] = it
                elif it["kind"] == "fn" and it["name"] == "from_str" and tr and tr.endswith("FromStr"):
                    out[st]["from_str"] = it
        return out
    return ctx.memo("spirv_enums", build)


def spirv_masks(ctx):
    """name -> {flags: [(NAME, value)], named_in_FLAGS: [...], problems: [...]} from the bitflags expansion."""
    def build():
        c = ctx.spirv
        out = {}
        structs = {s["name"] for s in c.items("spirv", "struct")}
        for im in c.items("spirv", "impl"):
            st = strip_generics(im["self_ty"])
            if st not in structs:
                continue
            tr = im.get("trait")
            m = out.setdefault(st, {"name": st, "consts": {}, "flags": None, "problems": []})
            if not tr:
                for it in im["items"]:
                    if it["kind"] == "const":
                        init = it["init"]
                        v = None
                        if is_node(init) and init[0] == "call" and path_of(init[1]) == "Self::from_bits_retain" and len(init[2]) == 1:
                            v = const_value(init[2][0])
                        if v is None:
                            m["problems"].append("flag %s has an initialiser that is not a literal: %s" % (it["name"], show(init)))
                        else:
                            m["consts"][it["name"]] = v
            elif tr.endswith("bitflags::Flags"):
                for it in im["items"]:
                    if it["kind"] == "const" and it["name"] == "FLAGS":
                        flags = []
                        for n in walk(it["init"]):
                            if n[0] == "call" and (path_of(n[1]) or "").endswith("Flag::new"):
                                p = path_of(n[2][1])
                                if p and p.startswith(st + "::"):
                                    flags.append(p.split("::")[-1])
                                else:
                                    m["problems"].append("FLAGS entry with a value that is not a named flag: %s" % show(n[2][1]))
                        m["flags"] = flags
                    if it["kind"] == "type" and it["name"] == "Bits":
                        m["bits_ty"] = it["ty"]
        return {k: v for k, v in out.items() if v["flags"] is not None}
    return ctx.memo("spirv_masks", build)


# --------------------------------------------------------------------------- grammar tables

def _table_rows(static, ext):
    init = strip_refs(static["init"])
    if not (is_node(init) and init[0] == "array"):
        raise Anchor("static %s is not an array literal" % static["name"])
    rows = []
    for r in init[1]:
        if not (is_node(r) and r[0] == "struct"):
            raise Anchor("row of %s is not a struct literal: %s" % (static["name"], show(r)[:80]))
        f = dict((a, b) for a, b in r[2])
        row = {"struct": r[1]}
        on = f.get("opname")
        row["opname"] = on[2] if is_node(on) and on[0] == "lit" and on[1] == "str" else None
        oc = f.get("opcode")
        if ext:
            row["opcode"] = const_value(oc)
        else:
            p = path_of(oc)
            row["opcode"] = p.split("::")[-1] if p and lastseg(p, 2).startswith("Op::") else None
        caps = strip_refs(f.get("capabilities"))
        row["caps"] = [lastseg(path_of(x) or "?") for x in caps[1]] if is_node(caps) and caps[0] == "array" else None
        exts = strip_refs(f.get("extensions"))
        row["exts"] = [x[2] if is_node(x) and x[0] == "lit" else "?" for x in exts[1]] if is_node(exts) and exts[0] == "array" else None
        ops = strip_refs(f.get("operands"))
        row["operands"] = None
        if is_node(ops) and ops[0] == "array":
            lst = []
            for o in ops[1]:
                if is_node(o) and o[0] == "struct":
                    g = dict((a, b) for a, b in o[2])
                    lst.append((lastseg(path_of(g.get("kind")) or "?"), lastseg(path_of(g.get("quantifier")) or "?")))
                else:
                    lst.append(("?", "?"))
            row["operands"] = lst
        rows.append(row)
    return rows


def grammar_tables(ctx):
    def build():
        c = ctx.rspirv
        mod = "rspirv::grammar::syntax"
        core = _table_rows(c.item(mod, "static", "INSTRUCTION_TABLE"), False)
        glsl = _table_rows(c.item(mod, "static", "GLSL_STD_450_INSTRUCTION_TABLE"), True)
        ocl = _table_rows(c.item(mod, "static", "OPENCL_STD_100_INSTRUCTION_TABLE"), True)
        kinds = [v["name"] for v in c.item(mod, "enum", "OperandKind")["variants"]]
        quants = [v["name"] for v in c.item(mod, "enum", "OperandQuantifier")["variants"]]
        return {"core": core, "glsl": glsl, "opencl": ocl, "kinds": kinds, "quantifiers": quants}
    return ctx.memo("grammar_tables", build)


def op_values(ctx):
    """Op variant -> number; plus alias consts resolved."""
    e = spirv_enums(ctx).get("Op")
    if not e:
        raise Anchor("enum spirv::Op not found")
    d = {n: v for n, v, _ in e["variants"]}
    return d, dict(e["aliases"])


def core_row(ctx, opname):
    rows = ctx.memo("core_by_name", lambda: {r["opcode"]: r for r in grammar_tables(ctx)["core"]})
    return rows.get(opname)


# --------------------------------------------------------------------------- opcode predicates (predeval)

class PredEval:
    """Evaluates `fn(spirv::Op) -> bool` bodies built from matches!/==/||/&&/! and calls to sibling predicates
    into explicit opcode sets."""

    def __init__(self, ctx, mod="rspirv::grammar::reflect"):
        self.ctx = ctx
        self.mod = mod
        self.ops, self.aliases = op_values(ctx)
        self.fns = {f["name"]: f for f in ctx.rspirv.fns(mod)}
        self._cache = {}

    def resolve_op(self, p):
        if p is None:
            return None
        segs = p.split("::")
        if len(segs) >= 2 and segs[-2] == "Op":
            n = segs[-1]
            n = self.aliases.get(n, n)
            if n in self.ops:
                return n
        return None

    def pat_ops(self, pat):
        k = pat[0]
        if k == "p_or":
            s = set()
            for c in pat[1]:
                s |= self.pat_ops(c)
            return s
        if k in ("p_path", "p_ident"):
            o = self.resolve_op(path_of(pat))
            if o is None:
                raise Anchor("pattern %s does not name an opcode" % show(pat))
            return {o}
        if k == "p_wild":
            return set(self.ops)
        raise Anchor("unrecognised opcode pattern %s" % show(pat))

    def predicate(self, name):
        if name in self._cache:
            return self._cache[name]
        f = self.fns.get(name)
        if f is None:
            raise Anchor("predicate %s not found in %s" % (name, self.mod))
        params = [p for p in f["sig"]["params"]]
        if len(params) != 1:
            raise Anchor("predicate %s does not take exactly one argument" % name)
        var = params[0][0]
        body = f["body"]
        stmts = body[1]
        if len(stmts) != 1 or stmts[0][0] != "expr":
            raise Anchor("predicate %s has a body that is not a single expression" % name)
        self._cache[name] = None  # recursion guard
        s = self.eval(stmts[0][1], var)
        self._cache[name] = s
        return s

    def eval(self, e, var):
        k = e[0]
        if k == "binary" and e[1] in ("||", "&&"):
            a = self.eval(e[2], var)
            b = self.eval(e[3], var)
            return (a | b) if e[1] == "||" else (a & b)
        if k == "binary" and e[1] in ("==", "!="):
            l, r = e[2], e[3]
            if path_of(l) != var:
                l, r = r, l
            if path_of(l) != var:
                raise Anchor("comparison not on the opcode argument: %s" % show(e))
            o = self.resolve_op(path_of(r))
            if o is None:
                raise Anchor("comparison with a non-opcode: %s" % show(e))
            return {o} if e[1] == "==" else set(self.ops) - {o}
        if k == "unary" and e[1] == "!":
            return set(self.ops) - self.eval(e[2], var)
        if k == "match":
            if path_of(e[1]) != var:
                raise Anchor("match not on the opcode argument: %s" % show(e[1]))
            res = set()
            seen = set()
            for pat, guard, body in e[2]:
                if guard is not None:
                    raise Anchor("guarded arm in predicate")
                ops = self.pat_ops(pat) - seen
                seen |= ops
                val = body
                if is_node(val) and val[0] == "lit" and val[1] == "bool":
                    if val[2]:
                        res |= ops
                else:
                    raise Anchor("predicate arm body is not a boolean literal: %s" % show(val))
            return res
        if k == "call":
            p = path_of(e[1])
            if p and len(e[2]) == 1 and path_of(e[2][0]) == var:
                n = p.split("::")[-1]
                r = self.predicate(n)
                if r is None:
                    raise Anchor("recursive predicate %s" % n)
                return r
        if k == "lit" and e[1] == "bool":
            return set(self.ops) if e[2] else set()
        if k == "block" and len(e[1]) == 1 and e[1][0][0] == "expr":
            return self.eval(e[1][0][1], var)
        raise Anchor("unrecognised predicate expression: %s" % show(e)[:120])


def predeval(ctx):
    return ctx.memo("predeval", lambda: PredEval(ctx))
